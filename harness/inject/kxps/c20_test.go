// C20 — rate meters report the counter's growth over the last full window (in-package: kxps).
//
// Virtual time only: the unexported sampling steps doSample(t) / sampleAverage(t) are called
// directly with fabricated instants; Start() (which spawns the wall-clock goroutine) is never
// called — the `started` flag it sets is set here instead.  Rates are read through the public
// getters of Krps / Kbps.  The oracle is verifharness/lib/refkxps, written from the statement.
//
// NOTE: compiled with the language version of /repo/go.mod (go 1.4): no generics, no min/max.
package kxps

import (
	"fmt"
	"math"
	"sort"
	"strings"
	"sync"
	"testing"
	"time"

	"verifharness/lib/mon"
	"verifharness/lib/refkxps"
	"verifharness/lib/vrand"
)

type verifSource struct{ c uint64 }

func (v *verifSource) NbRequests() uint64 { return v.c }
func (v *verifSource) TotalBytes() uint64 { return v.c }

type verifMeter struct {
	kb    bool
	rps   *krps
	bps   *kbps
	imp   *kxps
	src   *verifSource
	scale float64
}

func verifNewMeter(kb bool) *verifMeter {
	v := &verifMeter{kb: kb, src: &verifSource{}, scale: 1}
	if kb {
		v.bps = NewKbps(nil, v.src).(*kbps)
		v.imp = v.bps.imp
		v.scale = 8.0 / 1000.0
	} else {
		v.rps = NewKrps(nil, v.src).(*krps)
		v.imp = v.rps.imp
	}
	return v
}

func (v *verifMeter) name() string {
	if v.kb {
		return "kbps"
	}
	return "krps"
}

// getter i: 0 = 10 s, 1 = 30 s, 2 = 300 s, 3 = average (public, wall clock — used for the refusal check only)
func (v *verifMeter) public(i int) float64 {
	if v.kb {
		switch i {
		case 0:
			return v.bps.Kbps10s()
		case 1:
			return v.bps.Kbps30s()
		case 2:
			return v.bps.Kbps300s()
		}
		return v.bps.Average()
	}
	switch i {
	case 0:
		return v.rps.Rps10s()
	case 1:
		return v.rps.Rps30s()
	case 2:
		return v.rps.Rps300s()
	}
	return v.rps.Average()
}

func verifTry(f func() float64) (val float64, refused bool, msg string) {
	defer func() {
		if r := recover(); r != nil {
			refused = true
			msg = fmt.Sprint(r)
		}
	}()
	val = f()
	return
}

var verifWinNames = []string{"rate10s", "rate30s", "rate300s"}

func verifClose(a, b float64) bool {
	if a == b {
		return true
	}
	d := math.Abs(a - b)
	m := math.Abs(a)
	if math.Abs(b) > m {
		m = math.Abs(b)
	}
	return d <= 1e-9*m
}

func verifBad(x float64) bool { return math.IsNaN(x) || math.IsInf(x, 0) || x < 0 }

type verifStep struct {
	dt     int64 // ns since the previous step
	c      uint64
	sample bool // call doSample
	avg    bool // call sampleAverage
	gap    string
	act    string
}

// verifHistory draws one history.  Times are whole milliseconds, or (nsJitter) arbitrary nanoseconds.
func verifHistory(r *vrand.Rand) (steps []verifStep, mode string, wrap, nsJitter bool) {
	nsJitter = r.Chance(1, 3)
	modes := []string{"regular", "irregular", "slow", "fast"}
	mode = modes[r.Intn(len(modes))]
	wrap = r.Chance(1, 6)
	n := r.Range(2, 200)
	if r.Chance(1, 3) {
		n = r.Range(2, 30)
	}
	if r.Chance(1, 4000) {
		n = 70000 // a meter that has been sampling for a week: state after 2^16 samples
	}
	var c uint64
	switch {
	case wrap:
		c = ^uint64(0) - uint64(r.Intn(5000)) // a little below 2^64
	case r.Chance(1, 4):
		c = 0 // first observations of 0
	default:
		c = r.PickU64(1, 10, 1000, 1000000, 1<<40, 1<<61)
	}
	zeros := 0
	if c == 0 {
		zeros = r.Range(1, 4)
	}
	for i := 0; i < n; i++ {
		st := verifStep{sample: true, avg: r.Bool()}
		if r.Chance(1, 10) {
			st.sample, st.avg = false, true // the average is read between two sampling instants
		}
		// time
		var g int
		switch mode {
		case "regular":
			g = r.Pick(3, 3, 3, 3, 3, 3, 2, 2, 4, 1)
		case "slow":
			g = r.Pick(4, 5, 6, 6, 7, 8, 8, 3)
		case "fast":
			g = r.Pick(0, 0, 1, 1, 1, 1, 2, 3, 9)
		default:
			g = r.Intn(11)
			if n > 200 && g == 10 {
				g = 8 // no multi-week gaps in the 70 000-observation histories: 6000 of them would pass the 292 years a time.Duration can hold
			}
		}
		switch g {
		case 10:
			st.dt, st.gap = int64(r.Range(600000000, 3000000000)), "weeks" // 7..35 days: the meter's age passes 2^31 ms
		case 0:
			st.dt, st.gap = int64(r.Range(1, 999)), "tiny"
		case 1:
			st.dt, st.gap = int64(r.Range(1000, 9999)), "sub-window"
		case 2:
			st.dt, st.gap = 10000, "exactly-10s"
		case 3:
			st.dt, st.gap = int64(10000+r.Intn(60)), "timer-10s"
		case 4:
			st.dt, st.gap = int64(r.Range(10001, 29999)), "10-30s"
		case 5:
			st.dt, st.gap = 30000, "exactly-30s"
		case 6:
			st.dt, st.gap = int64(r.Range(30001, 299999)), "30-300s"
		case 7:
			st.dt, st.gap = 300000, "exactly-300s"
		case 8:
			st.dt, st.gap = int64(r.Range(300001, 3000000)), "multi-window"
		default:
			st.dt, st.gap = 0, "same-instant"
		}
		st.dt *= 1000000
		if nsJitter && st.gap != "same-instant" && !strings.HasPrefix(st.gap, "exactly") {
			st.dt += int64(r.Intn(1000000))
		}
		if nsJitter && strings.HasPrefix(st.gap, "exactly") && r.Chance(1, 3) {
			st.dt += int64(r.Pick(-1, 1)) // one nanosecond early / late
			st.gap = "exactly+-1ns"
		}
		if st.gap == "same-instant" && nsJitter && r.Bool() {
			st.dt, st.gap = int64(r.Pick(1, 999, 500000, 999999)), "sub-millisecond" // time has moved, by less than the meters' millisecond unit
		}
		if i == 0 {
			st.dt = 0
		}
		// counter
		if i > 0 {
			if zeros > 0 {
				zeros--
				st.act = "zero-first"
				if zeros == 0 {
					c = r.PickU64(1, 7, 1000, 1<<33)
					st.act = "first-nonzero"
				}
			} else {
				x := r.Intn(100)
				switch {
				case x < 45:
					c += uint64(r.Range(1, 1000))
					st.act = "small"
				case x < 60:
					c += uint64(r.Range(1000, 100000000))
					st.act = "medium"
				case x < 75:
					st.act = "stall"
				case x < 83 && !wrap:
					if r.Chance(1, 4) && c < 1<<61 {
						// a very large (still legitimate) increase: above 2^53 the increase times 1000 no longer fits an int64
						c += uint64(1)<<uint(r.Range(51, 60)) + uint64(r.Intn(1000))
					} else {
						c += uint64(1)<<uint(r.Range(32, 50)) + uint64(r.Intn(1000))
					}
					st.act = "jump"
				case x < 92 && !wrap && c > 1:
					// reset to a smaller value (both below 2^62)
					if c > 200 {
						c = uint64(r.Range(1, 100))
					} else {
						c = c / 2
					}
					st.act = "reset"
				case x < 95 && !wrap:
					c = 0
					st.act = "reset-to-zero"
				default:
					c += uint64(r.Range(1, 20))
					st.act = "small"
				}
			}
		} else if c == 0 {
			st.act = "zero-first"
		} else {
			st.act = "start"
		}
		st.c = c
		steps = append(steps, st)
	}
	return
}

func TestVerif_C20_Windows(t *testing.T) {
	m := mon.New("C20", "windows")
	defer m.Finish(t)
	m.Rule("PRNG histories of 2..200 (time, counter) observations fed to doSample/sampleAverage in virtual time, for the request meter and the bitrate meter: " +
		"modes regular (10 s timer with jitter) / irregular / slow / fast; gaps tiny, sub-window, exactly 10/30/300 s, between windows, multi-window (up to 3000 s), same instant; whole milliseconds or (1 in 3) nanosecond jitter incl. a window length +-1 ns; " +
		"counter steps small, medium, stall, jump (2^32..2^50), reset to a smaller value, reset to 0, first observations of 0, start values up to 2^61, wrap-around across 2^64 with small true increases; " +
		"the average is also read between sampling instants. distinct = meter x mode x observed events (windows that fired, stall/backwards zeros, wrap crossing, zero observations)")
	n := m.N(20000, 2000000)
	only := -1 // under `check.py --replay`: the recorded history only, no mandatory minimums
	if v, ok := m.ReplayField("case").(float64); ok {
		only = int(v)
	}
	require := func(name string, min int64) {
		if only == -1 {
			m.Require(name, min)
		}
	}
	require("evaluations", int64(n))
	require("observations", int64(n)*20)
	require("sampled_10s", int64(n))
	require("sampled_30s", int64(n))
	require("sampled_300s", int64(n/2))
	require("nonzero_rate_300s_checked", int64(n/4))
	require("backwards_or_stall_yielded_zero", int64(n/2))
	require("wrap_crossings_with_positive_rate", int64(n/50))
	require("refusals_before_start", int64(n)*4)
	require("average_nonzero_checked", int64(n))
	require("zero_first_histories", int64(n/20))
	require("zero_mid_observations", int64(n/20))
	type out struct {
		sig, detail string
		replay      interface{}
	}
	// per signature: the witness of the lowest history index, and a count (deterministic, bounded memory)
	type entry struct {
		idx, n int
		v      out
	}
	var cmu sync.Mutex
	coll := map[string]*entry{}
	flush := func(idx int, list []out) {
		cmu.Lock()
		defer cmu.Unlock()
		for _, x := range list {
			e := coll[x.sig]
			if e == nil {
				coll[x.sig] = &entry{idx, 1, x}
				continue
			}
			e.n++
			if idx < e.idx {
				e.idx, e.v = idx, x
			}
		}
	}
	mon.Parallel(n, func(w, idx int) {
		if only != -1 && idx != only {
			return
		}
		var list []out
		defer func() { flush(idx, list) }()
		cnt := map[string]int64{} // counters of this history, added to the monitor once (no lock per observation)
		defer func() {
			for k, v := range cnt {
				m.Count(k, v)
			}
		}()
		r := m.Rand("history", idx)
		steps, mode, wrap, nsJitter := verifHistory(r)
		if len(steps) >= 70000 {
			m.Count("histories_of_70000_observations", 1)
		}
		mt := verifNewMeter(r.Bool())
		base := time.Unix(int64(r.PickU64(0, 10, 1700000000, 4102444800)), 0)
		startAt := r.Intn(3) // the meter is "started" before this step; earlier steps verify the refusal
		m.Case()
		cur := -1                  // index of the step being processed
		mkLog := func() []string { // the history so far, formatted only when it is needed
			var l []string
			var tt int64
			for i := 0; i <= cur && i < len(steps); i++ {
				tt += steps[i].dt
				l = append(l, fmt.Sprintf("(%d,%d,%v,%v)", tt, steps[i].c, steps[i].sample, steps[i].avg))
			}
			return l
		}
		add := func(sig, format string, a ...interface{}) {
			log := mkLog()
			rep := map[string]interface{}{"case": idx, "meter": mt.name(), "mode": mode, "ns_jitter": nsJitter, "base_unix": base.Unix(), "started_before_step": startAt,
				"history_t_ns_counter_sample_avg": log}
			list = append(list, out{sig, fmt.Sprintf(format, a...) + fmt.Sprintf(" [%s, %s, step %d] history(t_ns,counter,doSample,avg)=%s", mt.name(), mode, len(log)-1, strings.Join(verifTail(log, 12), " ")), rep})
		}
		// a fresh meter refuses every reading
		for g := 0; g < 4; g++ {
			gi := g
			if val, refused, _ := verifTry(func() float64 { return mt.public(gi) }); !refused {
				add("c20:read-before-start-not-refused", "getter %d of a fresh meter returned %v", g, val)
				return
			}
			cnt["refusals_before_start"]++
		}
		cands := []refkxps.State{{}}
		var avg refkxps.Average
		var prevAvg float64
		var tms int64
		zeroMid := false
		ev := map[string]bool{}
		maxFired := 0
		for si, st := range steps {
			tms += st.dt
			now := base.Add(time.Duration(tms))
			mt.src.c = st.c
			cur = si
			cnt["observations"]++
			cnt["gap_"+st.gap]++
			cnt["step_"+st.act]++
			if si == startAt {
				mt.imp.started = true // what Start() does, minus the wall-clock goroutine
			}
			failed := false
			panicked := m.Guard("kxps.sample", nil, func() {
				if st.sample {
					if err := mt.imp.doSample(now); err != nil {
						cnt["doSample_errors"]++
					}
				}
				if !mt.imp.started {
					// reading before Start must be refused (documented panic), whatever was sampled so far
					for g := 0; g < 4; g++ {
						gi := g
						val, refused, msg := verifTry(func() float64 { return mt.public(gi) })
						if !refused {
							add("c20:read-before-start-not-refused", "getter %d returned %v before Start", g, val)
							failed = true
						} else {
							cnt["refusals_before_start"]++
							if !strings.Contains(msg, "should start") {
								cnt["refusals_with_other_message"]++
							}
						}
					}
				}
			})
			if panicked || failed {
				return
			}
			// model
			if st.sample {
				if st.c == 0 && cands[0].Init {
					zeroMid = true
					cnt["zero_mid_observations"]++
				}
				var next []refkxps.State
				for _, cs := range cands {
					next = append(next, cs.Observe(tms, st.c)...)
				}
				cands = next
			} else {
				for i := range cands {
					cands[i].Last = [3]int{}
				}
			}
			// library readings: public getters when started, fields (scaled here) before
			var vals [3]float64
			if mt.imp.started {
				for g := 0; g < 3; g++ {
					vals[g] = mt.public(g)
				}
			} else {
				vals = [3]float64{mt.imp.Xps10s() * mt.scale, mt.imp.Xps30s() * mt.scale, mt.imp.Xps300s() * mt.scale}
			}
			for g := 0; g < 3; g++ {
				if verifBad(vals[g]) {
					add("c20:value-not-finite-nonnegative:"+verifWinNames[g], "%s = %v", verifWinNames[g], vals[g])
					return
				}
			}
			var keep []refkxps.State
			for _, cs := range cands {
				ok := true
				for g := 0; g < 3; g++ {
					if !verifClose(vals[g], cs.W[g].Rate*mt.scale) {
						ok = false
					}
				}
				if ok {
					dup := false
					for _, k := range keep {
						if k == cs {
							dup = true
						}
					}
					if !dup {
						keep = append(keep, cs)
					}
				}
			}
			if len(keep) == 0 {
				p := cands[0]
				for g := 0; g < 3; g++ {
					if !verifClose(vals[g], p.W[g].Rate*mt.scale) {
						scope := []string{"window-not-due", "after-increase", "after-stall-or-backwards"}[p.Last[g]]
						if zeroMid {
							scope += "+after-zero-observation"
						}
						if wrap {
							scope += "+wrap"
						}
						add("c20:"+verifWinNames[g]+"-differs:"+scope, "%s reads %v, the statement gives %v (all readings %v; model %v %v %v; %d admissible models)",
							verifWinNames[g], vals[g], p.W[g].Rate*mt.scale, vals, p.W[0].Rate*mt.scale, p.W[1].Rate*mt.scale, p.W[2].Rate*mt.scale, len(cands))
						break
					}
				}
				return
			}
			cands = keep
			// evidence from the primary admissible model
			p := cands[0]
			fired := 0
			for g := 0; g < 3; g++ {
				if p.Last[g] != 0 {
					fired = g + 1
					cnt[[]string{"sampled_10s", "sampled_30s", "sampled_300s"}[g]]++
				}
				if p.Last[g] == 1 {
					cnt[[]string{"nonzero_rate_10s_checked", "nonzero_rate_30s_checked", "nonzero_rate_300s_checked"}[g]]++
				}
				if p.Last[g] == 2 {
					cnt["backwards_or_stall_yielded_zero"]++
					ev["zeroed"] = true
				}
			}
			if fired > maxFired {
				maxFired = fired
			}
			if wrap && si > 0 && st.c < steps[si-1].c && p.Last[0] == 1 {
				cnt["wrap_crossings_with_positive_rate"]++
				ev["wrap-crossed"] = true
			}
			ev[st.act] = true
			// average
			if st.avg {
				var got float64
				if m.Guard("kxps.sampleAverage", nil, func() { got = mt.imp.sampleAverage(now) }) {
					return
				}
				if verifBad(got) {
					add("c20:value-not-finite-nonnegative:average", "average = %v", got)
					return
				}
				want, any := avg.Read(tms, st.c)
				switch {
				case any:
					cnt["average_undefined_zero_elapsed"]++
				case st.c == 0:
					if got != 0 && got != prevAvg {
						add("c20:average-differs:zero-observation", "average reads %v at a zero observation (0 or unchanged %v expected)", got, prevAvg)
						return
					}
				case nsJitter && want > 0:
					// the statement's quotient, to a time resolution of one millisecond
					el := float64(tms - avg.T0)
					lo, hi := want*el/(el+1e6), math.Inf(1)
					if el > 1e6 {
						hi = want * el / (el - 1e6)
					} else {
						lo = 0 // less than the resolution has passed: indistinguishable from "no time"
					}
					if got < lo*(1-1e-9) || got > hi*(1+1e-9) {
						add("c20:average-differs:increase+ns-times", "average reads %v, the statement gives %v (accepted %v..%v for 1 ms resolution)", got, want, lo, hi)
						return
					}
					cnt["average_nonzero_checked"]++
					if !verifClose(got, want) {
						cnt["average_within_1ms_resolution_only"]++
					}
				case !verifClose(got, want):
					scope := "increase"
					if want == 0 {
						scope = "no-increase"
					}
					if wrap {
						scope += "+wrap"
					}
					add("c20:average-differs:"+scope, "average reads %v, the statement gives %v (first non-zero observation t=%d ns c=%d)", got, want, avg.T0, avg.C0)
					return
				default:
					if want > 0 {
						cnt["average_nonzero_checked"]++
					} else {
						cnt["average_zero_checked"]++
					}
				}
				prevAvg = got
			}
		}
		if steps[0].c == 0 {
			cnt["zero_first_histories"]++
		}
		var evs []string
		for _, k := range []string{"zeroed", "wrap-crossed", "stall", "jump", "reset", "reset-to-zero", "zero-first"} {
			if ev[k] {
				evs = append(evs, k)
			}
		}
		m.Classf("%s/%s/ns%v/fired%d/n%d/%s", mt.name(), mode, nsJitter, maxFired, verifBucket(len(steps)), strings.Join(evs, "+"))
		if m.WantSample() && len(steps) <= 8 && maxFired >= 2 && mt.imp.started {
			m.Sample(map[string]interface{}{"meter": mt.name(), "history_t_ns_counter_sample_avg": mkLog(), "final_rates": []float64{mt.public(0), mt.public(1), mt.public(2)}})
		}
	})
	var es []*entry
	for _, e := range coll {
		es = append(es, e)
	}
	sort.Slice(es, func(i, j int) bool {
		if es[i].idx != es[j].idx {
			return es[i].idx < es[j].idx
		}
		return es[i].v.sig < es[j].v.sig
	})
	for _, e := range es {
		for k := 0; k < e.n; k++ {
			m.Violation(e.v.sig, e.v.detail, e.v.replay)
		}
	}
}

func verifBucket(n int) int {
	switch {
	case n <= 8:
		return 8
	case n <= 30:
		return 30
	}
	return 200
}

func verifTail(s []string, n int) []string {
	if len(s) > n {
		return append([]string{"…"}, s[len(s)-n:]...)
	}
	return s
}
