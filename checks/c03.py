CHECK = {
    "level": "exploration",
    "engine": "rtmp-packets",
    "technique": "runtime round-trip monitors over generated packets, exhaustive 65536-event-type sweep, and a lock-step reference model of the outstanding-request table and of typed waits over two real endpoints",
    "level_text": "Held on the executions observed: tens of thousands of generated well-formed packets from every constructor (Size/marshal/unmarshal/re-marshal), all 65536 user-control event types x 5 data values exhaustively, thousands of A<->B histories over segmenting transports in which the peer's decoded Go type is compared with the statement's dispatch table and every _result/_error is judged by a small reference model of the outstanding table (matched, duplicate, unsolicited, re-used, zero/negative/fractional tids), sessions with up to thousands (thorough: tens of thousands) of requests outstanding at once answered in PRNG order, and typed waits compared with 'first element of the requested type, nothing more consumed'. Not a proof.",
    "level_note": "In-package (needs the unexported transaction hook for typed-wait set-up). AMF0 trees depth<=3, width<=6. _error responses: only no-panic and 'state afterwards unspecified' (statement speaks of _result). play/createStream/closeStream are accepted as the generic call packet re-marshalling to the same payload (DESIGN.md 4.1).",
    "parts": [
        {"name": "roundtrip", "pkg": "rtmp", "run": "^TestVerif_C03_RoundTrip$", "timeout": {"quick": 600, "thorough": 3600}},
        {"name": "ucsweep", "pkg": "rtmp", "run": "^TestVerif_C03_UserControlSweep$", "timeout": {"quick": 600, "thorough": 3600}},
        {"name": "wire", "pkg": "rtmp", "run": "^TestVerif_C03_Wire$", "timeout": {"quick": 600, "thorough": 3600}},
        {"name": "outstanding", "pkg": "rtmp", "run": "^TestVerif_C03_ManyOutstanding$", "timeout": {"quick": 600, "thorough": 3600}},
        {"name": "expect", "pkg": "rtmp", "run": "^TestVerif_C03_Expect$", "timeout": {"quick": 600, "thorough": 3600}},
    ],
    "assumptions": [
        "well-formed packets: connect carries transaction id 1; FMS event 0x1a carries one byte of event data; extra data only for SetBufferLength; command object always present for createStream/publish/play",
    ],
}
