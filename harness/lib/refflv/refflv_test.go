package refflv

import (
	"bytes"
	"encoding/hex"
	"reflect"
	"testing"
)

// Golden bytes worked out by hand from Annex E (DESIGN.md §6), so that the reference is
// anchored to the specification's constants and not only to its own inverse.
func TestGoldenFile(t *testing.T) {
	f := &File{HasVideo: true, HasAudio: true, Tags: []Tag{
		{Type: TagVideo, Timestamp: 0x01020304, Body: []byte{0xAA, 0xBB}},
		{Type: TagScript, Timestamp: 0, Body: nil},
	}}
	want := "464c5601" + "05" + "00000009" + "00000000" +
		"09" + "000002" + "020304" + "01" + "000000" + "aabb" + "0000000d" +
		"12" + "000000" + "000000" + "00" + "000000" + "0000000b"
	if got := hex.EncodeToString(f.Bytes()); got != want {
		t.Fatalf("got  %s\nwant %s", got, want)
	}
	for fl, b := range map[[2]bool]byte{{false, false}: 0, {true, false}: 1, {false, true}: 4, {true, true}: 5} {
		if got := AppendPreamble(nil, fl[0], fl[1])[4]; got != b {
			t.Fatalf("flags %v: %#x", fl, got)
		}
	}
	p, err := Parse(f.Bytes())
	if err != nil {
		t.Fatal(err)
	}
	if p.HasVideo != true || p.HasAudio != true || len(p.Tags) != 2 || p.Tags[0].Timestamp != 0x01020304 || p.Tags[0].Type != 9 ||
		!bytes.Equal(p.Tags[0].Body, []byte{0xAA, 0xBB}) || len(p.Tags[1].Body) != 0 || p.Tags[1].Type != 18 {
		t.Fatalf("parsed %+v", p)
	}
}

func TestParseRejects(t *testing.T) {
	good := (&File{HasAudio: true, Tags: []Tag{{Type: 8, Timestamp: 7, Body: []byte{1, 2, 3}}}}).Bytes()
	mut := func(off int, v byte) []byte { b := append([]byte(nil), good...); b[off] = v; return b }
	cases := map[string][]byte{
		"signature": mut(0, 'G'), "version": mut(3, 2), "flags-reserved": mut(4, 0x0c), "dataoffset": mut(8, 13), "prevsize0": mut(12, 1),
		"streamid": mut(13+10, 1), "prevsize": mut(len(good)-1, 3), "truncated-prevsize": good[:len(good)-1],
		"truncated-body": good[:13+11+2], "truncated-tag-header": good[:13+5], "truncated-header": good[:12],
	}
	for code, b := range cases {
		_, err := Parse(b)
		pe, ok := err.(*ParseError)
		if !ok || pe.Code != code {
			t.Errorf("%s: got %v", code, err)
		}
	}
	if _, err := Parse(good); err != nil {
		t.Fatal(err)
	}
}

func TestGoldenBodies(t *testing.T) {
	// AAC, 44 kHz, 16 bit, stereo, raw: the familiar af 01
	a := &AudioBody{Format: 10, Rate: 3, Size: 1, Channels: 1, Trait: 1, Payload: []byte{0x21}}
	if got := hex.EncodeToString(a.Bytes()); got != "af0121" {
		t.Fatal(got)
	}
	// MP3 22 kHz 16 bit mono: 2<<4 | 2<<2 | 1<<1 | 0 = 0x2a
	if got := hex.EncodeToString((&AudioBody{Format: 2, Rate: 2, Size: 1, Payload: []byte{9}}).Bytes()); got != "2a09" {
		t.Fatal(got)
	}
	// Opus with rate 24 and level 0x0102: rate bits of byte 0 stay 0
	o := &AudioBody{Format: 13, Size: 1, Channels: 1, Trait: 0x0e, OpusRate: 24, Level: 0x0102, Payload: []byte{7}}
	if got := hex.EncodeToString(o.Bytes()); got != "d30e18010207" {
		t.Fatal(got)
	}
	// AVC keyframe NALU, cts 0x010203: 17 01 010203
	v := &VideoBody{FrameType: 1, Codec: 7, PacketType: 1, CTS: 0x010203, Payload: []byte{5}}
	if got := hex.EncodeToString(v.Bytes()); got != "170101020305" {
		t.Fatal(got)
	}
	// info/command frame of H.263: 52 00
	if got := hex.EncodeToString((&VideoBody{FrameType: 5, Codec: 2, Payload: []byte{0}}).Bytes()); got != "5200" {
		t.Fatal(got)
	}
	for _, x := range []*AudioBody{a, o} {
		p, err := ParseAudio(x.Bytes())
		if err != nil || !reflect.DeepEqual(p, x) {
			t.Fatalf("%v %v %v", err, p, x)
		}
	}
	p, err := ParseVideo(v.Bytes())
	if err != nil || !reflect.DeepEqual(p, v) {
		t.Fatalf("%v %v", err, p)
	}
	if _, err := ParseAudio([]byte{0xd4, 0}); err != ErrNonCanonical {
		t.Fatal(err)
	}
	if _, err := ParseAudio([]byte{0xaf}); err != ErrShortBody {
		t.Fatal(err)
	}
	if _, err := ParseVideo([]byte{0x17, 0, 0, 0}); err != ErrShortBody {
		t.Fatal(err)
	}
}
