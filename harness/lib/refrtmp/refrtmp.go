// Package refrtmp is an independent RTMP chunk-stream sender ("Chunker") and
// receiver ("Dechunker") written from the RTMP 1.0 specification §5.3 (see
// DESIGN.md §6), not from the library.  The chunker is driven by an explicit
// decision script (header type, basic-header form, interleaving), so that every
// legal way of putting a message list on the wire can be produced; it also
// produces the three rule-breaking streams of property C02.
package refrtmp

import (
	"encoding/binary"
	"errors"
	"fmt"
)

type Msg struct {
	Csid      uint32 // chunk stream id 2..65599
	Type      uint8
	StreamID  uint32
	Timestamp uint32 // full 32-bit sender timestamp
	Payload   []byte
}

// per chunk stream state, identical on a conformant sender and receiver
type csState struct {
	used     bool
	ts       uint32 // timestamp of the last message started on this chunk stream
	delta    uint32 // delta to re-use for a type-3 message start (after type 0: the timestamp)
	length   uint32
	typ      uint8
	streamID uint32
	ext      bool   // most recent type 0/1/2 header on this chunk stream carried an extended timestamp
	extField uint32 // the value of that extended field
	fmtLast  int
}

// Chunker -----------------------------------------------------------------------------------

type Chunker struct {
	ChunkSize uint32
	st        map[uint32]*csState
	Out       []byte
	// Observations for evidence
	FmtStarts   [4]int    // message starts by header type
	Trans       [4][4]int // previous start fmt -> this start fmt, per chunk stream
	BasicForms  [4]int    // index 1..3
	ExtHeaders  int
	ExtInType3  int
	Chunks      int
	Interleaved int
}

func NewChunker() *Chunker { return &Chunker{ChunkSize: 128, st: map[uint32]*csState{}} }

// Pending is a message being sent chunk by chunk.
type Pending struct {
	c     *Chunker
	m     Msg
	form  int
	off   int
	first bool
	fmt   int
	ext   bool
	extV  uint32
}

// CanFmt reports whether a conformant sender may start m with header type f given the
// chunk stream's history; for f>0 the message must inherit the fields the header omits.
func (c *Chunker) CanFmt(m Msg, f int) bool {
	s := c.st[m.Csid]
	if f == 0 {
		return true
	}
	if s == nil || !s.used {
		return false
	}
	if m.StreamID != s.streamID {
		return false
	}
	if f >= 2 && (uint32(len(m.Payload)) != s.length || m.Type != s.typ) {
		return false
	}
	if f == 3 && m.Timestamp != s.ts+s.delta {
		return false
	}
	return true
}

// Peek returns the state needed by generators to condition a message on a header type.
func (c *Chunker) Peek(csid uint32) (used bool, ts, delta, length uint32, typ uint8, streamID uint32) {
	s := c.st[csid]
	if s == nil {
		return false, 0, 0, 0, 0, 0
	}
	return s.used, s.ts, s.delta, s.length, s.typ, s.streamID
}

func basicHeader(b []byte, f int, csid uint32, form int) []byte {
	switch form {
	case 1:
		return append(b, byte(f<<6)|byte(csid))
	case 2:
		return append(b, byte(f<<6)|0, byte(csid-64))
	default:
		v := csid - 64
		return append(b, byte(f<<6)|1, byte(v), byte(v>>8))
	}
}

// FormsFor lists the legal basic-header forms for a chunk stream id.
func FormsFor(csid uint32) []int {
	switch {
	case csid >= 2 && csid <= 63:
		return []int{1}
	case csid >= 64 && csid <= 319:
		return []int{2, 3}
	case csid >= 320 && csid <= 65599:
		return []int{3}
	}
	return nil
}

func put24(b []byte, v uint32) []byte { return append(b, byte(v>>16), byte(v>>8), byte(v)) }
func put32(b []byte, v uint32) []byte { return append(b, byte(v>>24), byte(v>>16), byte(v>>8), byte(v)) }

// Begin starts a message with header type f and basic-header form; it does not write
// anything until NextChunk.  The caller guarantees CanFmt(m,f) (or wants a fault).
func (c *Chunker) Begin(m Msg, f, form int) *Pending {
	return &Pending{c: c, m: m, form: form, first: true, fmt: f}
}

func (p *Pending) Done() bool { return !p.first && p.off >= len(p.m.Payload) }

// NextChunk appends one chunk of the message to c.Out and reports whether the message is complete.
func (p *Pending) NextChunk() bool {
	c := p.c
	m := p.m
	if p.first {
		p.first = false
		s := c.st[m.Csid]
		if s == nil {
			s = &csState{}
			c.st[m.Csid] = s
		}
		prevFmt := s.fmtLast
		wasUsed := s.used
		c.Out = basicHeader(c.Out, p.fmt, m.Csid, p.form)
		c.BasicForms[p.form]++
		switch p.fmt {
		case 0:
			field := m.Timestamp
			p.ext = field >= 0xffffff
			if p.ext {
				c.Out = put24(c.Out, 0xffffff)
			} else {
				c.Out = put24(c.Out, field)
			}
			c.Out = put24(c.Out, uint32(len(m.Payload)))
			c.Out = append(c.Out, m.Type)
			c.Out = append(c.Out, byte(m.StreamID), byte(m.StreamID>>8), byte(m.StreamID>>16), byte(m.StreamID>>24))
			p.extV = field
			s.delta = m.Timestamp // "if a Type 3 chunk follows a Type 0 chunk, the delta is the timestamp of the Type 0 chunk"
			s.ext, s.extField = p.ext, field
		case 1, 2:
			delta := m.Timestamp - s.ts
			p.ext = delta >= 0xffffff
			if p.ext {
				c.Out = put24(c.Out, 0xffffff)
			} else {
				c.Out = put24(c.Out, delta)
			}
			if p.fmt == 1 {
				c.Out = put24(c.Out, uint32(len(m.Payload)))
				c.Out = append(c.Out, m.Type)
			}
			p.extV = delta
			s.delta = delta
			s.ext, s.extField = p.ext, delta
		case 3:
			// nothing; inherits everything, re-uses the delta; the extended field is repeated if the
			// most recent type 0/1/2 header on this chunk stream had one
			p.ext = s.ext
			p.extV = s.extField
		}
		if p.ext {
			c.Out = put32(c.Out, p.extV)
			if p.fmt == 3 {
				c.ExtInType3++
			} else {
				c.ExtHeaders++
			}
		}
		s.used = true
		s.ts = m.Timestamp
		s.length = uint32(len(m.Payload))
		s.typ = m.Type
		s.streamID = m.StreamID
		s.fmtLast = p.fmt
		c.FmtStarts[p.fmt]++
		if wasUsed {
			c.Trans[prevFmt][p.fmt]++
		}
	} else {
		// continuation: type 3 with the extended timestamp repeated when the header had one
		c.Out = basicHeader(c.Out, 3, m.Csid, p.form)
		if p.ext {
			c.Out = put32(c.Out, p.extV)
			c.ExtInType3++
		}
	}
	n := len(m.Payload) - p.off
	if n > int(c.ChunkSize) {
		n = int(c.ChunkSize)
	}
	c.Out = append(c.Out, m.Payload[p.off:p.off+n]...)
	p.off += n
	c.Chunks++
	return p.off >= len(m.Payload)
}

// WriteWhole sends a message without interleaving.
func (c *Chunker) WriteWhole(m Msg, f, form int) {
	p := c.Begin(m, f, form)
	for !p.NextChunk() {
	}
}

// SetChunkSizeMsg builds the protocol control message; the caller applies c.ChunkSize after sending it.
func SetChunkSizeMsg(size uint32, ts uint32) Msg {
	b := make([]byte, 4)
	binary.BigEndian.PutUint32(b, size)
	return Msg{Csid: 2, Type: 1, StreamID: 0, Timestamp: ts, Payload: b}
}

// Fault writers: each appends one offending chunk header (plus what is needed to make it
// parseable) for the three rule breaks of C02.

// FaultType0InsideMessage writes a type-0 chunk on the chunk stream of an unfinished message.
func (c *Chunker) FaultType0InsideMessage(p *Pending) {
	c.Out = basicHeader(c.Out, 0, p.m.Csid, p.form)
	c.Out = put24(c.Out, 1)
	c.Out = put24(c.Out, uint32(len(p.m.Payload)))
	c.Out = append(c.Out, p.m.Type, 0, 0, 0, 0)
	c.Out = append(c.Out, make([]byte, 16)...)
}

// FaultLengthChanged writes a type-1 chunk with another message length inside an unfinished message.
func (c *Chunker) FaultLengthChanged(p *Pending) {
	c.Out = basicHeader(c.Out, 1, p.m.Csid, p.form)
	c.Out = put24(c.Out, 0)
	c.Out = put24(c.Out, uint32(len(p.m.Payload))+1)
	c.Out = append(c.Out, p.m.Type)
	c.Out = append(c.Out, make([]byte, 16)...)
}

// FaultFreshNotType0 starts a never-used chunk stream with header type f in 1..3.
func (c *Chunker) FaultFreshNotType0(csid uint32, f, form int) {
	c.Out = basicHeader(c.Out, f, csid, form)
	switch f {
	case 1:
		c.Out = put24(c.Out, 0)
		c.Out = put24(c.Out, 4)
		c.Out = append(c.Out, 8)
	case 2:
		c.Out = put24(c.Out, 0)
	}
	c.Out = append(c.Out, make([]byte, 16)...)
}

// LibrtmpPing writes the documented librtmp form: a fresh chunk stream 2 started with a type-1
// header carrying a 6-byte user control ping, timestamp delta 0.
func (c *Chunker) LibrtmpPing(data uint32) Msg {
	c.Out = append(c.Out, 0x42, 0, 0, 0, 0, 0, 6, 4, 0, 6)
	c.Out = put32(c.Out, data)
	s := &csState{used: true, ts: 0, delta: 0, length: 6, typ: 4, streamID: 0, fmtLast: 1}
	c.st[2] = s
	p := []byte{0, 6, 0, 0, 0, 0}
	binary.BigEndian.PutUint32(p[2:], data)
	c.FmtStarts[1]++
	return Msg{Csid: 2, Type: 4, StreamID: 0, Timestamp: 0, Payload: p}
}

// Dechunker ---------------------------------------------------------------------------------

// Dechunker is the specification's receiver.  AbsExt selects the one listed deviation of the
// library (DESIGN.md D18): an extended timestamp field on a message that starts with a type
// 1/2/3 header is taken as the absolute timestamp instead of a delta.
type Dechunker struct {
	ChunkSize uint32
	AbsExt    bool
	st        map[uint32]*rxState
	// Observations
	ExtOnNonType0Start int
}

type rxState struct {
	csState
	buf     []byte
	partial bool
	cur     Msg
}

func NewDechunker() *Dechunker { return &Dechunker{ChunkSize: 128, st: map[uint32]*rxState{}} }

var ErrNeedMore = errors.New("refrtmp: need more bytes")

// Next parses one chunk from b.  It returns the bytes consumed and, if the chunk completed a
// message, the message (timestamp NOT yet reduced to 31 bits).  Set Chunk Size is applied.
func (d *Dechunker) Next(b []byte) (n int, done *Msg, err error) {
	if len(b) < 1 {
		return 0, nil, ErrNeedMore
	}
	f := int(b[0] >> 6)
	csid := uint32(b[0] & 0x3f)
	off := 1
	switch csid {
	case 0:
		if len(b) < 2 {
			return 0, nil, ErrNeedMore
		}
		csid = uint32(b[1]) + 64
		off = 2
	case 1:
		if len(b) < 3 {
			return 0, nil, ErrNeedMore
		}
		csid = uint32(b[2])*256 + uint32(b[1]) + 64
		off = 3
	}
	s := d.st[csid]
	if s == nil {
		s = &rxState{}
		d.st[csid] = s
	}
	if !s.used && f != 0 {
		// the one documented exception (property C02): librtmp starts chunk stream 2 with a type-1 ping
		if !(csid == 2 && f == 1) {
			return 0, nil, fmt.Errorf("refrtmp: fresh chunk stream %d starts with type %d", csid, f)
		}
	}
	if s.partial && f == 0 {
		return 0, nil, fmt.Errorf("refrtmp: type 0 inside an unfinished message on chunk stream %d", csid)
	}
	hs := [4]int{11, 7, 3, 0}[f]
	if len(b) < off+hs {
		return 0, nil, ErrNeedMore
	}
	h := b[off : off+hs]
	off += hs
	start := !s.partial
	// Everything is parsed into locals first and committed only when the whole chunk is available, so that
	// Next can be called again with a longer buffer after ErrNeedMore.
	length, typ, streamID, ext, extField := s.length, s.typ, s.streamID, s.ext, s.extField
	var field uint32
	if f <= 2 {
		field = uint32(h[0])<<16 | uint32(h[1])<<8 | uint32(h[2])
		if f <= 1 {
			l := uint32(h[3])<<16 | uint32(h[4])<<8 | uint32(h[5])
			if !start && l != s.length {
				return 0, nil, fmt.Errorf("refrtmp: message length changed mid-message on chunk stream %d", csid)
			}
			length = l
			typ = h[6]
			if f == 0 {
				streamID = uint32(h[7]) | uint32(h[8])<<8 | uint32(h[9])<<16 | uint32(h[10])<<24
			}
		}
		ext = field == 0xffffff
	}
	if ext {
		if len(b) < off+4 {
			return 0, nil, ErrNeedMore
		}
		ev := binary.BigEndian.Uint32(b[off:])
		off += 4
		if f <= 2 {
			field = ev
		}
		extField = ev
	}
	have := len(s.buf)
	if start {
		have = 0
	}
	n = int(length) - have
	if n > int(d.ChunkSize) {
		n = int(d.ChunkSize)
	}
	if len(b) < off+n {
		return 0, nil, ErrNeedMore
	}
	// commit
	s.length, s.typ, s.streamID, s.ext, s.extField = length, typ, streamID, ext, extField
	if start {
		switch f {
		case 0:
			s.ts = field
			s.delta = field
		case 1, 2:
			if s.ext {
				d.ExtOnNonType0Start++
			}
			if d.AbsExt && s.ext {
				s.ts = field
			} else {
				s.ts += field
			}
			s.delta = field
		case 3:
			if s.ext {
				d.ExtOnNonType0Start++
			}
			if d.AbsExt && s.ext {
				s.ts = s.extField
			} else {
				s.ts += s.delta
			}
		}
		s.used = true
		s.partial = true
		s.buf = s.buf[:0]
		s.cur = Msg{Csid: csid, Type: s.typ, StreamID: s.streamID, Timestamp: s.ts}
	}
	s.buf = append(s.buf, b[off:off+n]...)
	off += n
	if len(s.buf) == int(s.length) {
		s.partial = false
		m := s.cur
		m.Type = s.typ
		m.Payload = append([]byte(nil), s.buf...)
		if m.Type == 1 && len(m.Payload) >= 4 {
			d.ChunkSize = binary.BigEndian.Uint32(m.Payload) & 0x7fffffff
		}
		return off, &m, nil
	}
	return off, nil, nil
}

// All parses a complete byte stream; it returns the completed messages, the offset after each
// one, and the error (nil at a clean end, ErrNeedMore if the stream ends inside a chunk).
func (d *Dechunker) All(b []byte) (msgs []Msg, ends []int, err error) {
	off := 0
	for off < len(b) {
		n, m, e := d.Next(b[off:])
		if e != nil {
			return msgs, ends, e
		}
		off += n
		if m != nil {
			msgs = append(msgs, *m)
			ends = append(ends, off)
		}
	}
	return msgs, ends, nil
}
