package refjose

// An independent producer of JWS and JWE objects for the whole algorithm matrix, written from RFC 7515/7516/7518 on top
// of the Go standard library's primitives only (crypto/hmac, crypto/rsa, crypto/ecdsa, crypto/aes, crypto/cipher,
// compress/flate).  The key wrap (RFC 3394), AES-CBC-HMAC composition (RFC 7518 5.2.2), GCM key wrap (4.7), Concat KDF
// (4.6) and the serializations are written out here.  Nothing of the library under test is imported: an object made
// here is what a conformant third party would send.

import (
	"bytes"
	"compress/flate"
	"crypto"
	"crypto/aes"
	"crypto/cipher"
	"crypto/ecdsa"
	"crypto/hmac"
	"crypto/rsa"
	"crypto/sha1"
	"crypto/sha256"
	"crypto/sha512"
	"encoding/binary"
	"encoding/json"
	"fmt"
	"hash"
	"io"
	"math/big"
)

func hashOf(bits string) (crypto.Hash, func() hash.Hash) {
	switch bits {
	case "256":
		return crypto.SHA256, sha256.New
	case "384":
		return crypto.SHA384, sha512.New384
	}
	return crypto.SHA512, sha512.New
}

// SignCompact produces a compact JWS.  alg in HS/RS/PS/ES x 256/384/512; key: []byte, *rsa.PrivateKey, *ecdsa.PrivateKey.
// extra header members (may be nil) are added to the protected header.
func SignCompact(alg string, key interface{}, payload []byte, rnd io.Reader, extra map[string]interface{}) (string, error) {
	hdr := map[string]interface{}{"alg": alg}
	for k, v := range extra {
		hdr[k] = v
	}
	hb, _ := json.Marshal(hdr)
	input := B64(hb) + "." + B64(payload)
	ch, newH := hashOf(alg[2:])
	h := newH()
	h.Write([]byte(input))
	digest := h.Sum(nil)
	var sig []byte
	var err error
	switch alg[:2] {
	case "HS":
		mac := hmac.New(newH, key.([]byte))
		mac.Write([]byte(input))
		sig = mac.Sum(nil)
	case "RS":
		sig, err = rsa.SignPKCS1v15(rnd, key.(*rsa.PrivateKey), ch, digest)
	case "PS":
		sig, err = rsa.SignPSS(rnd, key.(*rsa.PrivateKey), ch, digest, &rsa.PSSOptions{SaltLength: rsa.PSSSaltLengthEqualsHash})
	case "ES":
		k := key.(*ecdsa.PrivateKey)
		var r, s *big.Int
		r, s, err = ecdsa.Sign(rnd, k, digest)
		if err == nil {
			n := (k.Curve.Params().BitSize + 7) / 8
			sig = append(fixed(r, n), fixed(s, n)...) // RFC 7518 3.4: R || S, each the curve's octet length
		}
	default:
		err = fmt.Errorf("unsupported alg %s", alg)
	}
	if err != nil {
		return "", err
	}
	return input + "." + B64(sig), nil
}

// SignJSON produces a flattened-JSON JWS whose header members are split between the protected header (prot, may be nil: then
// the object has no "protected" member and the signing input starts with the empty string, RFC 7515 5.1/7.2.1) and the
// unprotected "header" member (unprot, may be nil).  "alg" is put where algInProtected says.
func SignJSON(alg string, key interface{}, payload []byte, rnd io.Reader, prot, unprot map[string]interface{}, algInProtected bool) (string, error) {
	p := map[string]interface{}{}
	for k, v := range prot {
		p[k] = v
	}
	u := map[string]interface{}{}
	for k, v := range unprot {
		u[k] = v
	}
	if algInProtected {
		p["alg"] = alg
	} else {
		u["alg"] = alg
	}
	protB64 := ""
	if len(p) > 0 {
		hb, _ := json.Marshal(p)
		protB64 = B64(hb)
	}
	// sign protB64 "." b64(payload) with the primitive of alg (SignCompact's core, on an explicit signing input)
	input := protB64 + "." + B64(payload)
	ch, newH := hashOf(alg[2:])
	h := newH()
	h.Write([]byte(input))
	digest := h.Sum(nil)
	var sig []byte
	var err error
	switch alg[:2] {
	case "HS":
		mac := hmac.New(newH, key.([]byte))
		mac.Write([]byte(input))
		sig = mac.Sum(nil)
	case "RS":
		sig, err = rsa.SignPKCS1v15(rnd, key.(*rsa.PrivateKey), ch, digest)
	case "PS":
		sig, err = rsa.SignPSS(rnd, key.(*rsa.PrivateKey), ch, digest, &rsa.PSSOptions{SaltLength: rsa.PSSSaltLengthEqualsHash})
	case "ES":
		k := key.(*ecdsa.PrivateKey)
		var r, s2 *big.Int
		r, s2, err = ecdsa.Sign(rnd, k, digest)
		if err == nil {
			n := (k.Curve.Params().BitSize + 7) / 8
			sig = append(fixed(r, n), fixed(s2, n)...)
		}
	default:
		err = fmt.Errorf("unsupported alg %s", alg)
	}
	if err != nil {
		return "", err
	}
	obj := map[string]interface{}{"payload": B64(payload), "signature": B64(sig)}
	if protB64 != "" {
		obj["protected"] = protB64
	}
	if len(u) > 0 {
		obj["header"] = u
	}
	b, _ := json.Marshal(obj)
	return string(b), nil
}

// KeyWrap is RFC 3394 AES key wrap with the default IV.
func KeyWrap(kek, cek []byte) ([]byte, error) {
	if len(cek)%8 != 0 || len(cek) < 16 {
		return nil, fmt.Errorf("key wrap: bad input length %d", len(cek))
	}
	blk, err := aes.NewCipher(kek)
	if err != nil {
		return nil, err
	}
	n := len(cek) / 8
	a := []byte{0xA6, 0xA6, 0xA6, 0xA6, 0xA6, 0xA6, 0xA6, 0xA6}
	r := make([][]byte, n)
	for i := range r {
		r[i] = append([]byte(nil), cek[i*8:i*8+8]...)
	}
	buf := make([]byte, 16)
	for j := 0; j < 6; j++ {
		for i := 0; i < n; i++ {
			copy(buf, a)
			copy(buf[8:], r[i])
			blk.Encrypt(buf, buf)
			t := uint64(n*j + i + 1)
			var tb [8]byte
			binary.BigEndian.PutUint64(tb[:], t)
			for k := 0; k < 8; k++ {
				a[k] = buf[k] ^ tb[k]
			}
			copy(r[i], buf[8:])
		}
	}
	out := append([]byte(nil), a...)
	for i := range r {
		out = append(out, r[i]...)
	}
	return out, nil
}

// CBCHMACSeal is AES_CBC_HMAC_SHA2 of RFC 7518 5.2.2: key = MAC_KEY || ENC_KEY; returns ciphertext and the truncated tag.
func CBCHMACSeal(key, iv, plaintext, aad []byte) (ct, tag []byte, err error) {
	half := len(key) / 2
	var newH func() hash.Hash
	switch half {
	case 16:
		newH = sha256.New
	case 24:
		newH = sha512.New384
	case 32:
		newH = sha512.New
	default:
		return nil, nil, fmt.Errorf("cbc-hmac: bad key length %d", len(key))
	}
	macKey, encKey := key[:half], key[half:]
	blk, err := aes.NewCipher(encKey)
	if err != nil {
		return nil, nil, err
	}
	pad := 16 - len(plaintext)%16
	p := append(append([]byte(nil), plaintext...), bytes.Repeat([]byte{byte(pad)}, pad)...)
	ct = make([]byte, len(p))
	cipher.NewCBCEncrypter(blk, iv).CryptBlocks(ct, p)
	mac := hmac.New(newH, macKey)
	mac.Write(aad)
	mac.Write(iv)
	mac.Write(ct)
	var al [8]byte
	binary.BigEndian.PutUint64(al[:], uint64(len(aad))*8)
	mac.Write(al[:])
	return ct, mac.Sum(nil)[:half], nil
}

// ContentKeyLen is the CEK length of a content encryption.
func ContentKeyLen(enc string) int {
	return map[string]int{"A128GCM": 16, "A192GCM": 24, "A256GCM": 32, "A128CBC-HS256": 32, "A192CBC-HS384": 48, "A256CBC-HS512": 64}[enc]
}

func gcmSeal(key, iv, plaintext, aad []byte) (ct, tag []byte, err error) {
	blk, err := aes.NewCipher(key)
	if err != nil {
		return nil, nil, err
	}
	g, err := cipher.NewGCM(blk)
	if err != nil {
		return nil, nil, err
	}
	sealed := g.Seal(nil, iv, plaintext, aad)
	return sealed[:len(sealed)-16], sealed[len(sealed)-16:], nil
}

// EncryptOpts are the caller-chosen random inputs (deterministic objects) and options of EncryptCompact.
type EncryptOpts struct {
	CEK   []byte   // content encryption key (ignored for dir / ECDH-ES direct)
	IV    []byte   // 12 bytes for GCM, 16 for CBC
	KWIV  []byte   // 12 bytes, A*GCMKW only
	EphD  *big.Int // ephemeral scalar, ECDH-ES* only
	Zip   bool     // "zip":"DEF"
	AAD   []byte   // flattened JSON only: additional authenticated data
	Rnd   io.Reader
	Extra map[string]interface{}
}

// Encrypt produces a JWE (compact, and flattened JSON; with o.AAD only the JSON form carries it and compact is "").
// alg: dir, A128KW/A192KW/A256KW, A128GCMKW/A192GCMKW/A256GCMKW, RSA1_5, RSA-OAEP, RSA-OAEP-256, ECDH-ES,
// ECDH-ES+A128KW/A192KW/A256KW.  key: []byte, *rsa.PublicKey or *ecdsa.PublicKey.
func Encrypt(alg, enc string, key interface{}, plaintext []byte, o EncryptOpts) (compact, flat string, err error) {
	ckl := ContentKeyLen(enc)
	if ckl == 0 {
		return "", "", fmt.Errorf("unsupported enc %s", enc)
	}
	hdr := map[string]interface{}{"alg": alg, "enc": enc}
	for k, v := range o.Extra {
		hdr[k] = v
	}
	cek := o.CEK
	var ek []byte
	kwLen := func(a string) int { return map[string]int{"A128": 16, "A192": 24, "A256": 32}[a] }
	switch {
	case alg == "dir":
		cek = key.([]byte)
	case alg == "A128KW" || alg == "A192KW" || alg == "A256KW":
		if ek, err = KeyWrap(key.([]byte), cek); err != nil {
			return "", "", err
		}
	case alg == "A128GCMKW" || alg == "A192GCMKW" || alg == "A256GCMKW":
		ct, tag, e := gcmSeal(key.([]byte), o.KWIV, cek, nil)
		if e != nil {
			return "", "", e
		}
		ek = ct
		hdr["iv"], hdr["tag"] = B64(o.KWIV), B64(tag)
	case alg == "RSA1_5":
		ek, err = rsa.EncryptPKCS1v15(o.Rnd, key.(*rsa.PublicKey), cek)
	case alg == "RSA-OAEP":
		ek, err = rsa.EncryptOAEP(sha1.New(), o.Rnd, key.(*rsa.PublicKey), cek, nil)
	case alg == "RSA-OAEP-256":
		ek, err = rsa.EncryptOAEP(sha256.New(), o.Rnd, key.(*rsa.PublicKey), cek, nil)
	case len(alg) >= 7 && alg[:7] == "ECDH-ES":
		pub := key.(*ecdsa.PublicKey)
		crv, size, e := curveName(pub.Curve)
		if e != nil {
			return "", "", e
		}
		ex, ey := pub.Curve.ScalarBaseMult(o.EphD.Bytes())
		zx, _ := pub.Curve.ScalarMult(pub.X, pub.Y, o.EphD.Bytes())
		z := fixed(zx, size)
		hdr["epk"] = map[string]string{"kty": "EC", "crv": crv, "x": B64(fixed(ex, size)), "y": B64(fixed(ey, size))}
		if alg == "ECDH-ES" {
			cek = ConcatKDFSHA256(z, enc, nil, nil, ckl)
		} else {
			kek := ConcatKDFSHA256(z, alg, nil, nil, kwLen(alg[8:12]))
			if ek, err = KeyWrap(kek, cek); err != nil {
				return "", "", err
			}
		}
	default:
		return "", "", fmt.Errorf("unsupported alg %s", alg)
	}
	if err != nil {
		return "", "", err
	}
	if len(cek) != ckl {
		return "", "", fmt.Errorf("cek length %d for %s", len(cek), enc)
	}
	pt := plaintext
	if o.Zip {
		hdr["zip"] = "DEF"
		var b bytes.Buffer
		w, _ := flate.NewWriter(&b, flate.DefaultCompression)
		w.Write(plaintext)
		w.Close()
		pt = b.Bytes()
	}
	hb, _ := json.Marshal(hdr)
	prot := B64(hb)
	aad := []byte(prot)
	if o.AAD != nil {
		aad = append(append(aad, '.'), []byte(B64(o.AAD))...)
	}
	var ct, tag []byte
	if enc[4:] == "GCM" {
		ct, tag, err = gcmSeal(cek, o.IV, pt, aad)
	} else {
		ct, tag, err = CBCHMACSeal(cek, o.IV, pt, aad)
	}
	if err != nil {
		return "", "", err
	}
	if o.AAD == nil {
		compact = prot + "." + B64(ek) + "." + B64(o.IV) + "." + B64(ct) + "." + B64(tag)
	}
	fm := map[string]string{"protected": prot, "iv": B64(o.IV), "ciphertext": B64(ct), "tag": B64(tag)}
	if len(ek) > 0 {
		fm["encrypted_key"] = B64(ek)
	}
	if o.AAD != nil {
		fm["aad"] = B64(o.AAD)
	}
	fb, _ := json.Marshal(fm)
	return compact, string(fb), nil
}
